package main

// C07 — stream framing is independent of how the transport chunks bytes.

import (
	"fmt"
	"go/constant"
	"go/token"
	"go/types"
	"strings"

	"golang.org/x/tools/go/ssa"
)

func runC07(r *Run, verifDir string) {
	p := r.P
	r.Explain = append(r.Explain,
		"C07 is decided on the SSA of ttlv.Stream.Recv/computeNeededBytes/Send: S1 the slice handed to the transport's Read is bounded above by the announced extent `need` (8, then 8+padded length from the header), never by len/cap of the buffer, and the slice handed to the decoder is exactly buf[:need]; S2 the decoder runs only once read >= need, every other exit returns a non-nil error; S3 every path from the header-derived `need` to the buffer growth passes through the comparison with the configured maximum; S4 computeNeededBytes asks for 8 bytes until the header is complete and then derives the extent from header bytes 4..8 only; S5 Send writes the encoding and never drops a Write error; plus the index/slice safety of Recv that C02.R4 defers here.")
	r.Assume = append(r.Assume, "the transport honours the io.Reader contract (0 <= n <= len(p))", "64-bit int: 8+padded length does not overflow")
	r.NotCov = append(r.NotCov, "transports violating the io.Reader contract", "32-bit int overflow of 8+paddedLen", "the exhaustive enumeration of segmentations (runtime)")

	fn := p.Func("ttlv", "Stream", "Recv")
	if fn == nil {
		r.Rule("C07.S1", "anchor", 1)
		r.Unk("C07.S1", "ttlv.Stream.Recv", token.NoPos, "anchor missing")
		return
	}
	// identify the pieces
	var readCall, unmarshalCall, cnbCall, growCall *ssa.Call
	readBufArg := 0 // index of the buffer among the read call's arguments
	allInstrs(fn, func(in ssa.Instruction) {
		c, ok := in.(*ssa.Call)
		if !ok {
			return
		}
		id := callID(&c.Call)
		switch {
		case c.Call.IsInvoke() && c.Call.Method.Name() == "Read":
			readCall = c
		case id.pkg == "io" && (id.name == "ReadFull" || id.name == "ReadAtLeast") && len(c.Call.Args) >= 2:
			readCall, readBufArg = c, 1
		case id.is(ttlvPath, "", "UnmarshalTTLV"):
			unmarshalCall = c
		case id.is(ttlvPath, "", "computeNeededBytes"):
			cnbCall = c
		case id.pkg == "slices" && id.name == "Grow":
			growCall = c
		}
	})
	r.Rule("C07.S1", "Read is handed buf[read:need] and the decoder buf[:need]: at most, and exactly, the announced extent", 2)
	r.Rule("C07.S2", "the decoder runs only when read >= need; every other exit returns a non-nil error", 2)
	r.Rule("C07.S3", "the configured maximum is checked on every path from the header-derived extent to buffer growth", 2)
	r.Rule("C07.S4", "computeNeededBytes: 8 until the header is complete, then 8 + padded length read from header bytes 4..8", 2)
	r.Rule("C07.S5", "Send writes the MarshalTTLV encoding and never drops a Write error", 1)
	r.Rule("C07.S6", "index/slice safety of Recv (deferred from C02.R4): cap(buf) >= need before slicing, read < need on the loop edge", 3)
	// the announced extent: the result of computeNeededBytes(buf[:read+n]), or — when that helper was inlined into
	// Recv — the value `8 if read+n < 8 else 8 + ttlvReader{buf: buf[:read+n]}.paddedLen()`
	var needVal, needSrc ssa.Value
	var needPos token.Pos
	var needBlock *ssa.BasicBlock
	inlinedNeed := false
	if cnbCall != nil {
		needVal, needPos, needBlock = cnbCall, cnbCall.Pos(), cnbCall.Block()
		if len(cnbCall.Call.Args) > 0 {
			needSrc = cnbCall.Call.Args[0]
		}
	} else {
		allInstrs(fn, func(in ssa.Instruction) {
			ph, ok := in.(*ssa.Phi)
			if !ok || len(ph.Edges) != 2 || needVal != nil {
				return
			}
			for i, e := range ph.Edges {
				k, isK := constIntVal(e)
				if !isK || k != 8 {
					continue
				}
				sum, ok := ph.Edges[1-i].(*ssa.BinOp)
				if !ok || sum.Op != token.ADD {
					continue
				}
				var pc *ssa.Call
				for _, pr := range [][2]ssa.Value{{sum.X, sum.Y}, {sum.Y, sum.X}} {
					if k8, isK8 := constIntVal(pr[0]); isK8 && k8 == 8 {
						if c, isC := pr[1].(*ssa.Call); isC && callID(&c.Call).is(ttlvPath, "ttlvReader", "paddedLen") {
							pc = c
						}
					}
				}
				if pc == nil {
					continue
				}
				// the reader literal's buffer
				al, ok := pc.Call.Args[0].(*ssa.Alloc)
				if !ok {
					continue
				}
				var src ssa.Value
				lits := []*ssa.Alloc{al}
				for _, ref := range *al.Referrers() {
					// `hdr := ttlvReader{...}`: the literal is built in a temporary and copied
					if st, ok := ref.(*ssa.Store); ok && st.Addr == ssa.Value(al) {
						if ld, ok := st.Val.(*ssa.UnOp); ok && ld.Op == token.MUL {
							if a2, ok := ld.X.(*ssa.Alloc); ok {
								lits = append(lits, a2)
							}
						}
					}
				}
				for _, lit := range lits {
					for _, ref := range *lit.Referrers() {
						if fa, ok := ref.(*ssa.FieldAddr); ok {
							for _, r2 := range *fa.Referrers() {
								if st, ok := r2.(*ssa.Store); ok && st.Addr == ssa.Value(fa) {
									src = st.Val
								}
							}
						}
					}
				}
				// the constant edge is taken when the header is incomplete: `x < 8` on the way to it
				hdrIncomplete := false
				pred := ph.Block().Preds[i]
				conds := dominatingConds(pred)
				if cond, isTrue, ok := edgeTaken(pred, ph.Block()); ok {
					conds = append(conds, domCond{cond, isTrue, pred})
				}
				for _, dc := range conds {
					if bo, ok := dc.cond.(*ssa.BinOp); ok {
						if k8, isK8 := constIntVal(bo.Y); isK8 && k8 == 8 && ((bo.Op == token.LSS && dc.outcome) || (bo.Op == token.GEQ && !dc.outcome)) {
							if sl, isSl := src.(*ssa.Slice); isSl && (bo.X == sl.High) {
								hdrIncomplete = true
							} else if y, isLen := lenOperand(bo.X); isLen && src != nil && sameSlice(y, src) {
								hdrIncomplete = true
							}
						}
					}
				}
				if src != nil && hdrIncomplete {
					needVal, needSrc, needPos, needBlock, inlinedNeed = ph, src, pc.Pos(), ph.Block(), true
				}
			}
		})
	}
	if readCall == nil || unmarshalCall == nil || needVal == nil {
		r.Unk("C07.S1", "ttlv.Stream.Recv/shape", fn.Pos(), "Read / UnmarshalTTLV / computeNeededBytes calls not found (read=%v unmarshal=%v needed=%v)", readCall != nil, unmarshalCall != nil, needVal != nil)
		return
	}
	// need: the phi fed by the constant 8 and by computeNeededBytes
	var needPhi *ssa.Phi
	for _, ref := range *needVal.Referrers() {
		if ph, ok := ref.(*ssa.Phi); ok {
			for _, e := range ph.Edges {
				if k, ok := constIntVal(e); ok && k == 8 {
					needPhi = ph
				}
			}
		}
	}
	// needCur: the value of `need` once an iteration has updated it. Normally the computeNeededBytes result itself; with
	// a latch (`if !sized { need = computeNeededBytes(...); ...; sized = read >= 8 }`) the merge of the loop value and
	// the fresh computation — the latch is validated below, once `read += n` is known.
	needCur := needVal
	var latch *ssa.Phi
	if needPhi == nil {
		for _, ref := range *needVal.Referrers() {
			l, ok := ref.(*ssa.Phi)
			if !ok {
				continue
			}
			// every edge is the fresh computation or the loop value
			var hp *ssa.Phi
			shape := true
			for _, e := range l.Edges {
				if e == needVal {
					continue
				}
				if ph, isPhi := e.(*ssa.Phi); isPhi && (hp == nil || hp == ph) && len(ph.Edges) == 2 {
					hp = ph
					continue
				}
				shape = false
			}
			if !shape || hp == nil {
				continue
			}
			for j, he := range hp.Edges {
				if k, ok := constIntVal(he); ok && k == 8 && hp.Edges[1-j] == ssa.Value(l) {
					needPhi, latch, needCur = hp, l, l
				}
			}
		}
	}
	if needPhi == nil {
		r.Unk("C07.S1", "ttlv.Stream.Recv/need", fn.Pos(), "the `need` variable (phi of 8 and computeNeededBytes) not recognised")
		return
	}
	// --- S7: the transport is touched by nothing but the one bounded read (and Send's write, Close's close)
	r.Rule("C07.S7", "the stream's transport is used only by the bounded read of Recv, the write of Send and Close: nothing else can consume or inject bytes", 3)
	for _, f := range pkgFuncs(p, "ttlv") {
		ord := 0
		allInstrs(f, func(in ssa.Instruction) {
			ld, ok := in.(*ssa.UnOp)
			if !ok || ld.Op != token.MUL {
				return
			}
			fa, ok := ld.X.(*ssa.FieldAddr)
			if !ok || typeName(derefType(fa.X.Type())) != "Stream" || fname(derefStruct(fa.X.Type()).Field(fa.Field)) != "inner" {
				return
			}
			for _, ref := range *ld.Referrers() {
				ord++
				key := fmt.Sprintf("%s/transport-use#%d", fnKey(f), ord)
				okUse, what := false, "another use"
				switch x := ref.(type) {
				case *ssa.Call:
					switch {
					case x == readCall:
						okUse, what = true, "the bounded read"
					case x.Call.IsInvoke() && x.Call.Value == ssa.Value(ld) && x.Call.Method.Name() == "Write" && idOf(f).name == "Send":
						okUse, what = true, "Send's write"
					case x.Call.IsInvoke() && x.Call.Value == ssa.Value(ld) && x.Call.Method.Name() == "Close":
						okUse, what = true, "close"
					case x.Call.IsInvoke() && x.Call.Value == ssa.Value(ld):
						what = "a call of " + x.Call.Method.Name()
					default:
						what = "handed to " + callID(&x.Call).String()
					}
				case *ssa.BinOp:
					okUse, what = true, "nil test" // s.inner == nil
				case *ssa.Store:
					okUse = x.Addr != ssa.Value(ld) && false
					what = "stored elsewhere"
				case *ssa.DebugRef:
					okUse = true
				case *ssa.MakeInterface, *ssa.ChangeInterface:
					what = "converted and passed on"
					// io.ReadFull(s.inner, buf[read:need]): the conversion to io.Reader feeds the bounded read only
					if v, isV := ref.(ssa.Value); isV && v.Referrers() != nil && len(*v.Referrers()) > 0 {
						only := true
						for _, r2 := range *v.Referrers() {
							if c2, isC := r2.(*ssa.Call); !isC || c2 != readCall {
								only = false
							}
						}
						if only {
							okUse, what = true, "the bounded read"
						}
					}
				}
				if okUse {
					r.OK("C07.S7", key, ref.Pos(), "%s", what)
				} else {
					r.Bad("C07.S7", key, posOr(ref.Pos(), ld.Pos()), "%s uses the stream's transport outside the bounded read/write/close (%s): bytes of the stream can be consumed (or written) without passing through the framing of Recv/Send — e.g. a drain after a rejected message takes bytes of the following one", fnKey(f), what)
				}
			}
		})
	}
	// --- S1
	rs, ok := readCall.Call.Args[readBufArg].(*ssa.Slice)
	switch {
	case !ok:
		r.Bad("C07.S1", "ttlv.Stream.Recv/read-extent", readCall.Pos(), "Read is not handed a bounded slice of the buffer")
	case rs.High != ssa.Value(needPhi):
		r.Bad("C07.S1", "ttlv.Stream.Recv/read-extent", readCall.Pos(), "the slice handed to Read is not bounded above by the announced extent `need`: a read can take bytes of the following message, which are then lost")
	default:
		r.OK("C07.S1", "ttlv.Stream.Recv/read-extent", readCall.Pos(), "Read(buf[read:need]): never more than the announced extent")
	}
	us, ok := unmarshalCall.Call.Args[0].(*ssa.Slice)
	switch {
	case !ok:
		r.Bad("C07.S1", "ttlv.Stream.Recv/decode-extent", unmarshalCall.Pos(), "the decoder is not handed a bounded slice")
	case us.Low != nil || us.High != needCur:
		r.Bad("C07.S1", "ttlv.Stream.Recv/decode-extent", unmarshalCall.Pos(), "the decoder is not handed exactly buf[:need]")
	default:
		r.OK("C07.S1", "ttlv.Stream.Recv/decode-extent", unmarshalCall.Pos(), "UnmarshalTTLV(buf[:need])")
	}
	// --- S2: dominated by read' >= need' true edge
	var readPhi *ssa.Phi
	var readNext *ssa.BinOp
	if rs != nil {
		readPhi, _ = rs.Low.(*ssa.Phi)
	}
	if readPhi != nil {
		for _, e := range readPhi.Edges {
			if b, ok := e.(*ssa.BinOp); ok && b.Op == token.ADD && b.X == ssa.Value(readPhi) {
				if ex, ok := b.Y.(*ssa.Extract); ok && ex.Tuple == ssa.Value(readCall) && ex.Index == 0 {
					readNext = b
				}
			}
		}
	}
	// S1 (third clause): the extent is derived from everything received so far, buf[:read+n]
	if readNext != nil {
		cs, ok := needSrc.(*ssa.Slice)
		switch {
		case !ok:
			r.Bad("C07.S1", "ttlv.Stream.Recv/extent-source", needPos, "the announced extent is not computed from a prefix of the receive buffer")
		case cs.Low != nil || cs.High != ssa.Value(readNext):
			r.Bad("C07.S1", "ttlv.Stream.Recv/extent-source", needPos, "the announced extent is not computed from buf[:read+n], all the bytes received so far: when the transport delivers fewer than 8 bytes in one read the extent falls back to 8 (or is read from the wrong bytes) and the stream is desynchronised")
		default:
			r.OK("C07.S1", "ttlv.Stream.Recv/extent-source", needPos, "the extent is computed from buf[:read+n]")
		}
	}
	if latch != nil {
		if why := c07LatchSound(latch, needPhi, needVal, readNext, needBlock); why != "" {
			r.Bad("C07.S1", "ttlv.Stream.Recv/extent-latch", latch.Pos(), "the announced extent is not recomputed after every read, and the flag that skips the computation is not a latch on a complete header (%s): a header that arrives in pieces leaves `need` at a stale value and the stream is desynchronised", why)
		} else {
			r.OK("C07.S1", "ttlv.Stream.Recv/extent-latch", latch.Pos(), "the extent computation is skipped only under a flag that starts false and is set, after a computation, to read+n >= 8: header bytes are not written again (Read is handed buf[read:need]), so the skipped computation would return the same value")
		}
	}
	if readNext == nil {
		r.Unk("C07.S2", "ttlv.Stream.Recv/complete", fn.Pos(), "`read += n` not recognised")
	} else {
		complete := false
		for _, dc := range dominatingConds(unmarshalCall.Block()) {
			if impliesGE(dc.cond, dc.outcome, readNext, needCur) {
				complete = true
			}
		}
		if complete {
			r.OK("C07.S2", "ttlv.Stream.Recv/complete", unmarshalCall.Pos(), "decode dominated by read >= need")
		} else {
			r.Bad("C07.S2", "ttlv.Stream.Recv/complete", unmarshalCall.Pos(), "the decoder can run before the announced extent has been read: a message split across reads is decoded from a partial buffer")
		}
	}
	// other exits return non-nil
	badRet := 0
	allInstrs(fn, func(in ssa.Instruction) {
		ret, ok := in.(*ssa.Return)
		if !ok || ret.Results[0] == ssa.Value(unmarshalCall) {
			return
		}
		v := ret.Results[0]
		var nn func(v ssa.Value, at *ssa.BasicBlock, d int) bool
		nn = func(v ssa.Value, at *ssa.BasicBlock, d int) bool {
			if d > 5 {
				return false
			}
			switch x := v.(type) {
			case *ssa.Call:
				id := callID(&x.Call)
				return id.is(ttlvPath, "", "Errorf") || id.is("fmt", "", "Errorf") || id.is("errors", "", "New")
			case *ssa.UnOp:
				if g, ok := x.X.(*ssa.Global); ok && isErrorType(g.Type().(*types.Pointer).Elem()) && !strings.HasPrefix(g.Pkg.Pkg.Path(), modPath) {
					return true // a sentinel error variable of the standard library
				}
			case *ssa.MakeInterface:
				return true
			case *ssa.Phi:
				for i, e := range x.Edges {
					if !nn(e, x.Block().Preds[i], d+1) {
						return false
					}
				}
				return true
			}
			for _, dc := range dominatingConds(at) {
				if bo, ok := dc.cond.(*ssa.BinOp); ok && dc.outcome && bo.Op == token.NEQ && bo.X == v && isNilConst(bo.Y) {
					return true
				}
			}
			return false
		}
		nonNil := nn(v, ret.Block(), 0)
		if !nonNil {
			badRet++
			r.Bad("C07.S2", "ttlv.Stream.Recv/exits", ret.Pos(), "an exit of Recv other than the decode may return a nil error: a truncated stream would be reported as a message")
		}
	})
	if badRet == 0 {
		r.OK("C07.S2", "ttlv.Stream.Recv/exits", fn.Pos(), "every exit other than the decode returns a non-nil error (transport error, io.EOF/io.ErrUnexpectedEOF on a zero read, size limit)")
	}
	// --- S3
	if growCall == nil {
		r.Unk("C07.S3", "ttlv.Stream.Recv/limit", fn.Pos(), "buffer growth (slices.Grow) not found")
	} else {
		// remove the sanctioned edges and test reachability from the definition of need to the growth
		type edge struct{ from, to *ssa.BasicBlock }
		cut := map[edge]bool{}
		nLimit := 0
		for _, b := range fn.Blocks {
			if len(b.Instrs) == 0 {
				continue
			}
			iff, ok := b.Instrs[len(b.Instrs)-1].(*ssa.If)
			if !ok {
				continue
			}
			bo, ok := iff.Cond.(*ssa.BinOp)
			if !ok {
				continue
			}
			isMax := func(v ssa.Value) bool {
				u, ok := unspill(v).(*ssa.UnOp)
				if !ok {
					return false
				}
				_, fld, ok := fieldAddrOf(u.X)
				return ok && fname(fld) == "max"
			}
			// normalise to `a OP b` with a = need or max
			x, y, op := unspill(bo.X), unspill(bo.Y), bo.Op
			mirror := map[token.Token]token.Token{token.LSS: token.GTR, token.LEQ: token.GEQ, token.GTR: token.LSS, token.GEQ: token.LEQ, token.EQL: token.EQL, token.NEQ: token.NEQ}
			if (isMax(x) && (y == needVal || y == needCur)) || func() bool { _, isK := constIntVal(x); return isK && isMax(y) }() {
				x, y, op = y, x, mirror[op]
			}
			switch {
			case (x == needVal || x == needCur) && isMax(y):
				// need OP max: the edge on which need <= max holds
				switch op {
				case token.GTR, token.GEQ:
					cut[edge{b, b.Succs[1]}] = true
					nLimit++
				case token.LEQ, token.LSS:
					cut[edge{b, b.Succs[0]}] = true
					nLimit++
				}
			case isMax(x):
				// max OP k: the edge on which no limit is configured (max <= 0)
				if k, ok := constIntVal(y); ok {
					switch {
					case op == token.GTR && k == 0, op == token.GEQ && k == 1, op == token.NEQ && k == 0:
						cut[edge{b, b.Succs[1]}] = true
					case op == token.LEQ && k == 0, op == token.LSS && k == 1, op == token.EQL && k == 0:
						cut[edge{b, b.Succs[0]}] = true
					}
				}
			}
		}
		seen := map[*ssa.BasicBlock]bool{}
		var walk func(b *ssa.BasicBlock)
		walk = func(b *ssa.BasicBlock) {
			for _, s := range b.Succs {
				if cut[edge{b, s}] || seen[s] {
					continue
				}
				seen[s] = true
				walk(s)
			}
		}
		walk(needBlock)
		// the limit only applies when one is configured: the rejection is reached under max > 0 (a limit of 0, or the
		// -1 the client passes, means "no limit" — without the test every message is refused)
		isMaxV := func(v ssa.Value) bool {
			u, ok := unspill(v).(*ssa.UnOp)
			if !ok {
				return false
			}
			_, fld, ok := fieldAddrOf(u.X)
			return ok && fname(fld) == "max"
		}
		nRej, rejBad := 0, token.NoPos
		for _, b := range fn.Blocks {
			ret, ok := b.Instrs[len(b.Instrs)-1].(*ssa.Return)
			if !ok || len(ret.Results) == 0 || isNilConst(ret.Results[len(ret.Results)-1]) {
				continue
			}
			over, positive := false, false
			for _, dc := range dominatingConds(b) {
				bo, ok := dc.cond.(*ssa.BinOp)
				if !ok || !dc.outcome {
					continue
				}
				if bo.Op == token.GTR && (unspill(bo.X) == needVal || unspill(bo.X) == needCur) && isMaxV(bo.Y) {
					over = true
				}
				if isMaxV(bo.X) {
					if k, isK := constIntVal(bo.Y); isK && ((bo.Op == token.GTR && k >= 0) || (bo.Op == token.GEQ && k >= 1) || (bo.Op == token.NEQ && k == 0)) {
						positive = true
					}
				}
			}
			if over {
				nRej++
				if !positive {
					rejBad = ret.Pos()
				}
			}
		}
		if rejBad.IsValid() && c07MaxAlwaysPositive(p) {
			// the constructor already turns "no limit" into a positive bound (e.g. non-positive -> math.MaxInt)
			rejBad = token.NoPos
		}
		if rejBad.IsValid() {
			r.Bad("C07.S3", "ttlv.Stream.Recv/limit-only-if-positive", rejBad, "Recv refuses a message for exceeding the maximum without having found the maximum positive: a stream created with no limit (0, or the client's -1) rejects every message")
		} else if nRej > 0 {
			r.OK("C07.S3", "ttlv.Stream.Recv/limit-only-if-positive", fn.Pos(), "the size rejection is reached only under max > 0")
		}
		switch {
		case nLimit == 0:
			r.Bad("C07.S3", "ttlv.Stream.Recv/limit", fn.Pos(), "the announced extent is never compared with the configured maximum")
		case seen[growCall.Block()]:
			r.Bad("C07.S3", "ttlv.Stream.Recv/limit", growCall.Pos(), "the buffer can be grown to the announced size on a path that has not compared it with the configured maximum: a header announcing a huge length makes the receiver allocate it")
		default:
			r.OK("C07.S3", "ttlv.Stream.Recv/limit", growCall.Pos(), "every path from need = computeNeededBytes(...) to slices.Grow passes `need > s.max` (false) or `s.max > 0` (false)")
		}
	}
	// the server configures a positive limit
	nNS := 0
	for _, f := range p.OwnFuncs() {
		allInstrs(f, func(in ssa.Instruction) {
			c, ok := in.(*ssa.Call)
			if !ok || !callID(&c.Call).is(ttlvPath, "", "NewStream") {
				return
			}
			k, isConst := constIntVal(c.Call.Args[1])
			if idOf(f).pkg == modPath+"/kmipserver" {
				nNS++
				if isConst && k > 0 {
					r.OK("C07.S3", fnKey(f)+"/NewStream", c.Pos(), "server connections limit messages to %d bytes", k)
				} else {
					r.Bad("C07.S3", fnKey(f)+"/NewStream", c.Pos(), "the server creates its stream without a positive size limit: any client can make it buffer an announced 4 GiB")
				}
			} else {
				r.Infof("C07.S3: %s creates a stream with limit %v (client side: the server is trusted for size)", fnKey(f), c.Call.Args[1])
			}
		})
	}
	if nNS == 0 {
		r.Unk("C07.S3", "kmipserver/NewStream", token.NoPos, "no NewStream call found in kmipserver")
	}
	// --- S4
	if cn := p.Func("ttlv", "", "computeNeededBytes"); cn != nil {
		ok8, okSum := false, false
		allInstrs(cn, func(in ssa.Instruction) {
			ret, ok := in.(*ssa.Return)
			if !ok {
				return
			}
			if k, ok := constIntVal(ret.Results[0]); ok && k == 8 {
				for _, dc := range dominatingConds(ret.Block()) {
					if bo, ok := dc.cond.(*ssa.BinOp); ok && dc.outcome && bo.Op == token.LSS {
						if _, isLen := lenOperand(bo.X); isLen {
							if c8, ok := constIntVal(bo.Y); ok && c8 == 8 {
								ok8 = true
							}
						}
					}
				}
			}
			if b, ok := ret.Results[0].(*ssa.BinOp); ok && b.Op == token.ADD {
				k, isK := constIntVal(b.X)
				c, isC := b.Y.(*ssa.Call)
				if isK && k == 8 && isC && callID(&c.Call).is(ttlvPath, "ttlvReader", "paddedLen") {
					okSum = true
				}
			}
		})
		if ok8 && okSum {
			r.OK("C07.S4", "ttlv.computeNeededBytes", cn.Pos(), "returns 8 while len(buf) < 8, else 8 + paddedLen()")
		} else {
			r.Bad("C07.S4", "ttlv.computeNeededBytes", cn.Pos(), "computeNeededBytes no longer has the form `8 while the header is incomplete, else 8 + padded length` (header-incomplete=%v sum=%v)", ok8, okSum)
		}
	} else if inlinedNeed {
		r.OK("C07.S4", "ttlv.computeNeededBytes", needPos, "inlined into Recv: 8 while fewer than 8 bytes were received, else 8 + paddedLen() of a reader over the bytes received")
	} else {
		r.Unk("C07.S4", "ttlv.computeNeededBytes", token.NoPos, "anchor missing")
	}
	if lf := p.Func("ttlv", "ttlvReader", "len"); lf != nil {
		ok := false
		allInstrs(lf, func(in ssa.Instruction) {
			if sl, isS := in.(*ssa.Slice); isS {
				lo, ok1 := constIntVal(sl.Low)
				hi, ok2 := constIntVal(sl.High)
				if ok1 && ok2 && lo == 4 && hi == 8 {
					for _, ref := range *sl.Referrers() {
						if c, isC := ref.(*ssa.Call); isC && callID(&c.Call).name == "Uint32" {
							ok = true
						}
					}
				}
			}
		})
		if ok {
			r.OK("C07.S4", "ttlv.ttlvReader.len", lf.Pos(), "the declared length is the big-endian uint32 at header bytes 4..8")
		} else {
			r.Bad("C07.S4", "ttlv.ttlvReader.len", lf.Pos(), "the declared length is not read from header bytes 4..8 as a big-endian uint32")
		}
	} else {
		r.Unk("C07.S4", "ttlv.ttlvReader.len", token.NoPos, "anchor missing")
	}
	// --- S5
	if sf := p.Func("ttlv", "Stream", "Send"); sf != nil {
		nW, dropped, fromMarshal := 0, 0, false
		allInstrs(sf, func(in ssa.Instruction) {
			c, ok := in.(*ssa.Call)
			if !ok || !c.Call.IsInvoke() || c.Call.Method.Name() != "Write" {
				return
			}
			nW++
			src := c.Call.Args[0]
			for {
				if sl, ok := src.(*ssa.Slice); ok {
					src = sl.X
					continue
				}
				break
			}
			if mc, ok := src.(*ssa.Call); ok && callID(&mc.Call).is(ttlvPath, "", "MarshalTTLV") {
				fromMarshal = true
			}
			used := false
			for _, ref := range *c.Referrers() {
				if ex, ok := ref.(*ssa.Extract); ok && ex.Index == 1 && len(*ex.Referrers()) > 0 {
					used = true
				}
			}
			if !used {
				dropped++
			}
		})
		switch {
		case nW == 0 || !fromMarshal:
			r.Bad("C07.S5", "ttlv.Stream.Send", sf.Pos(), "Send does not write the MarshalTTLV encoding of the message to the transport")
		case dropped > 0:
			r.Bad("C07.S5", "ttlv.Stream.Send", sf.Pos(), "Send drops the error of a Write: a failed or short transmission is reported as success and the peer waits for the rest of the message")
		default:
			r.OK("C07.S5", "ttlv.Stream.Send", sf.Pos(), "%d Write call(s) of the MarshalTTLV output; every Write error is returned or tested", nW)
		}
	} else {
		r.Unk("C07.S5", "ttlv.Stream.Send", token.NoPos, "anchor missing")
	}
	// --- S6 slicing safety of Recv
	// (a) buf handed to the slices has cap >= need: buf' = phi(buf [need <= cap(buf)], Grow(buf, need-cap(buf)))
	capOK := false
	if rs != nil {
		if ph, ok := rs.X.(*ssa.Phi); ok && len(ph.Edges) == 2 && growCall != nil {
			var other ssa.Value
			hasGrow := false
			for _, e := range ph.Edges {
				if e == ssa.Value(growCall) {
					hasGrow = true
				} else {
					other = e
				}
			}
			if hasGrow && growCall.Call.Args[0] == other {
				// grow amount need - cap(buf), executed under need > cap(buf)
				isCapOf := func(v, buf ssa.Value) bool {
					c, ok := v.(*ssa.Call)
					if !ok {
						return false
					}
					b, ok := c.Call.Value.(*ssa.Builtin)
					return ok && b.Name() == "cap" && len(c.Call.Args) == 1 && c.Call.Args[0] == buf
				}
				// Grow(buf, need-cap(buf)) executed under need > cap(buf): the amount is positive and the result has cap >= need
				// Grow(b, need-cap(b)) reaches need only when len(b) == cap(b): the buffer entering the loop must be a
				// fresh make([]byte, n) of this call (and need changes once, so growth happens at most once)
				freshFull := false
				if hp, ok := other.(*ssa.Phi); ok {
					freshFull = true
					for _, e := range hp.Edges {
						if e == ssa.Value(ph) || e == ssa.Value(hp) {
							continue
						}
						// make([]byte, N) with constant N: a slice of a fresh [N]byte over its whole length
						if sl, isSl := e.(*ssa.Slice); isSl && sl.Low == nil && sl.Max == nil {
							if al, isAl := sl.X.(*ssa.Alloc); isAl {
								if at, isArr := al.Type().(*types.Pointer).Elem().Underlying().(*types.Array); isArr {
									if h, ok := constIntVal(sl.High); sl.High == nil || (ok && h == at.Len()) {
										continue
									}
								}
							}
						}
						// x[:cap(x)]: length brought up to the capacity
						if sl, isSl := e.(*ssa.Slice); isSl && sl.Low == nil && sl.Max == nil && sl.High != nil {
							if cc, ok := sl.High.(*ssa.Call); ok {
								if b, ok := cc.Call.Value.(*ssa.Builtin); ok && b.Name() == "cap" && sameSlice(cc.Call.Args[0], sl.X) {
									continue
								}
							}
						}
						mk, isMk := e.(*ssa.MakeSlice)
						if !isMk {
							freshFull = false
							continue
						}
						l, ok1 := constIntVal(mk.Len)
						cp, ok2 := constIntVal(mk.Cap)
						if mk.Len != mk.Cap && !(ok1 && ok2 && l == cp) {
							freshFull = false
						}
					}
				}
				if sub, ok := growCall.Call.Args[1].(*ssa.BinOp); ok && freshFull && sub.Op == token.SUB && sub.X == ssa.Value(needPhi) && isCapOf(sub.Y, other) {
					for _, dc := range dominatingConds(growCall.Block()) {
						if bo, ok := dc.cond.(*ssa.BinOp); ok && dc.outcome && bo.Op == token.GTR && bo.X == ssa.Value(needPhi) && isCapOf(bo.Y, other) {
							capOK = true
						}
						// the same test on the difference: `missing := need - cap(buf); if missing > 0`
						if bo, ok := dc.cond.(*ssa.BinOp); ok && bo.X == ssa.Value(sub) {
							if k, isK := constIntVal(bo.Y); isK && ((bo.Op == token.GTR && k == 0 && dc.outcome) || (bo.Op == token.GEQ && k == 1 && dc.outcome) || (bo.Op == token.LEQ && k == 0 && !dc.outcome) || (bo.Op == token.LSS && k == 1 && !dc.outcome)) {
								capOK = true
							}
						}
					}
				}
			}
		}
	}
	generic := false
	if !capOK && rs != nil && rs.High != nil {
		generic = proveCap(rs.X, rs.High, rs.Block(), nil, 0)
	}
	if capOK {
		r.OK("C07.S6", "ttlv.Stream.Recv/cap", readCall.Pos(), "buf = need > cap(buf) ? Grow(buf, need-cap(buf)) : buf, hence cap(buf) >= need at buf[read:need]")
	} else if generic {
		r.OK("C07.S6", "ttlv.Stream.Recv/cap", readCall.Pos(), "cap(buf) >= need at buf[read:need] on every path: by the guard (need <= len/cap(buf)) or by the growth (Grow/append/make by at least need-len(buf))")
	} else {
		r.Bad("C07.S6", "ttlv.Stream.Recv/cap", readCall.Pos(), "buf[read:need] is not preceded by the growth idiom `if need > cap(buf) { buf = slices.Grow(buf, need-cap(buf)) }`: either cap(buf) < need at the slice (bounds panic on a message larger than the buffer) or Grow is called with a negative amount (panic) — in the connection's read loop, which has no recover")
	}
	// (b) loop edge only under read < need
	backOK := false
	nBack, nBackOK := 0, 0
	if readNext != nil {
		hdr := needPhi.Block()
		for _, pr := range hdr.Preds {
			if !hdr.Dominates(pr) {
				continue
			}
			facts := dominatingConds(pr)
			if cond, isTrue, ok := edgeTaken(pr, hdr); ok {
				facts = append(facts, domCond{cond, isTrue, pr})
			}
			thisOK := false
			for _, f := range facts {
				if impliesLT(f.cond, f.outcome, readNext, needCur) {
					thisOK = true
				}
			}
			nBack++
			if thisOK {
				nBackOK++
			}
		}
	}
	backOK = nBack > 0 && nBack == nBackOK
	if backOK {
		r.OK("C07.S6", "ttlv.Stream.Recv/read-lt-need", fn.Pos(), "the loop continues only when read < need (initially 0 < 8): low <= high in buf[read:need]")
	} else {
		r.Bad("C07.S6", "ttlv.Stream.Recv/read-lt-need", fn.Pos(), "the loop can continue with read >= need: buf[read:need] has low > high (panic) or Read is handed an empty slice forever")
	}
	// (c) buf[:read+n] and buf[:need] within cap: read+n <= need by the io.Reader contract; need <= cap by (a)
	r.OK("C07.S6", "ttlv.Stream.Recv/prefixes", fn.Pos(), "buf[:read+n] (n <= need-read by the io.Reader contract) and buf[:need] are within cap(buf) >= need")
}

// proveCap: cap(v) >= need holds whenever control is in block blk having arrived through edge conditions extra.
// Derivation rules: a dominating (or edge) comparison need <= cap(v) / need <= len(v); phi = all edges; v[:h] / v[:] keep
// the capacity; slices.Grow(b, need-len(b)) and append(b, make([]byte, need-len(b))...) reach need; make([]byte, need[, c>=need]).
func proveCap(v, need ssa.Value, blk *ssa.BasicBlock, extra []domCond, depth int) bool {
	if depth > 6 {
		return false
	}
	isLenCapOf := func(x, buf ssa.Value) bool {
		c, ok := x.(*ssa.Call)
		if !ok {
			return false
		}
		b, ok := c.Call.Value.(*ssa.Builtin)
		return ok && (b.Name() == "cap" || b.Name() == "len") && len(c.Call.Args) == 1 && c.Call.Args[0] == buf
	}
	conds := append(append([]domCond{}, extra...), dominatingConds(blk)...)
	for _, dc := range conds {
		bo, ok := dc.cond.(*ssa.BinOp)
		if !ok {
			continue
		}
		switch {
		case bo.Op == token.GTR && !dc.outcome && bo.X == need && isLenCapOf(bo.Y, v),
			bo.Op == token.LEQ && dc.outcome && bo.X == need && isLenCapOf(bo.Y, v),
			bo.Op == token.LSS && !dc.outcome && isLenCapOf(bo.X, v) && bo.Y == need,
			bo.Op == token.GEQ && dc.outcome && isLenCapOf(bo.X, v) && bo.Y == need:
			return true
		}
	}
	needMinusLen := func(k, b ssa.Value) bool {
		sub, ok := k.(*ssa.BinOp)
		if !ok || sub.Op != token.SUB || sub.X != need {
			return false
		}
		c, ok := sub.Y.(*ssa.Call)
		if !ok {
			return false
		}
		bi, ok := c.Call.Value.(*ssa.Builtin)
		return ok && bi.Name() == "len" && c.Call.Args[0] == b
	}
	switch x := v.(type) {
	case *ssa.Phi:
		for i, e := range x.Edges {
			pr := x.Block().Preds[i]
			var ex []domCond
			if cond, isTrue, ok := edgeTaken(pr, x.Block()); ok {
				ex = append(ex, domCond{cond, isTrue, pr})
			}
			if e == ssa.Value(x) {
				continue
			}
			if !proveCap(e, need, pr, ex, depth+1) {
				return false
			}
		}
		return true
	case *ssa.Slice:
		if x.Low == nil && x.Max == nil {
			return proveCap(x.X, need, blk, extra, depth+1)
		}
	case *ssa.MakeSlice:
		return x.Len == need || x.Cap == need
	case *ssa.Call:
		id := callID(&x.Call)
		if id.pkg == "slices" && id.name == "Grow" && len(x.Call.Args) == 2 {
			return needMinusLen(x.Call.Args[1], x.Call.Args[0])
		}
		if b, ok := x.Call.Value.(*ssa.Builtin); ok && b.Name() == "append" && len(x.Call.Args) == 2 {
			if mk, ok := x.Call.Args[1].(*ssa.MakeSlice); ok {
				return needMinusLen(mk.Len, x.Call.Args[0])
			}
		}
	}
	return false
}

// c07LatchSound validates `if !flag { need = computeNeededBytes(buf[:read+n]); ...; flag = read+n >= 8 }`: latch is
// need' = phi(need, fresh). It returns "" when the edge that keeps the old value is taken only under a boolean loop
// variable that is false on entry and whose every other source is `read+n >= 8` (or a constant true under that test)
// evaluated in an iteration that computed the extent; otherwise the reason.
func c07LatchSound(latch, needPhi *ssa.Phi, fresh ssa.Value, readNext *ssa.BinOp, freshBlock *ssa.BasicBlock) string {
	if readNext == nil {
		return "`read += n` not recognised"
	}
	hdr := needPhi.Block()
	var flag *ssa.Phi
	nSkip := 0
	for iSkip, e := range latch.Edges {
		if e != ssa.Value(needPhi) {
			continue
		}
		nSkip++
		pred := latch.Block().Preds[iSkip]
		conds := dominatingConds(pred)
		if cnd, isTrue, ok := edgeTaken(pred, latch.Block()); ok {
			conds = append(conds, domCond{cnd, isTrue, pred})
		}
		var fl *ssa.Phi
		for _, dc := range conds {
			if !hdr.Dominates(dc.at) {
				continue
			}
			c, want := dc.cond, dc.outcome
			for {
				if u, ok := c.(*ssa.UnOp); ok && u.Op == token.NOT {
					c, want = u.X, !want
					continue
				}
				break
			}
			if ph, ok := c.(*ssa.Phi); ok && want {
				fl = ph
			}
		}
		if fl == nil || (flag != nil && fl != flag) {
			return "the skip is not controlled by one boolean variable being true"
		}
		flag = fl
	}
	if nSkip == 0 || flag == nil {
		return "no edge keeps the previous value"
	}
	flagPhis := map[*ssa.Phi]bool{}
	complete := func(v ssa.Value, at *ssa.BasicBlock, edge []domCond) bool {
		hdrComplete := func(c ssa.Value, outcome bool) bool {
			bo, ok := c.(*ssa.BinOp)
			if !ok || (bo.X != ssa.Value(readNext) && bo.X != readNext.Y) { // read+n, or n alone (read >= 0)
				return false
			}
			k, isK := constIntVal(bo.Y)
			if !isK {
				return false
			}
			switch {
			case outcome && bo.Op == token.GEQ && k >= 8, outcome && bo.Op == token.GTR && k >= 7,
				!outcome && bo.Op == token.LSS && k >= 8, !outcome && bo.Op == token.LEQ && k >= 7:
				return true
			}
			return false
		}
		if hdrComplete(v, true) {
			return true
		}
		if u, ok := v.(*ssa.UnOp); ok && u.Op == token.NOT && hdrComplete(u.X, false) {
			return true
		}
		if k, ok := v.(*ssa.Const); ok && k.Value != nil && k.Value.Kind() == constant.Bool && constant.BoolVal(k.Value) {
			for _, dc := range append(dominatingConds(at), edge...) {
				if hdrComplete(dc.cond, dc.outcome) {
					return true
				}
				// `flag || ...`: true because the flag already is
				if ph, ok := dc.cond.(*ssa.Phi); ok && dc.outcome && hdr.Dominates(ph.Block()) && ph.Type() == flag.Type() && flagPhis[ph] {
					return true
				}
			}
		}
		return false
	}
	seen := flagPhis
	why := ""
	nSet := 0
	var walk func(ph *ssa.Phi)
	walk = func(ph *ssa.Phi) {
		if seen[ph] {
			return
		}
		seen[ph] = true
		for i, e := range ph.Edges {
			pr := ph.Block().Preds[i]
			if p2, ok := e.(*ssa.Phi); ok {
				walk(p2)
				continue
			}
			if k, ok := e.(*ssa.Const); ok && k.Value != nil && k.Value.Kind() == constant.Bool && !constant.BoolVal(k.Value) {
				continue
			}
			at := pr
			if in, ok := e.(ssa.Instruction); ok {
				at = in.Block()
			}
			var edge []domCond
			if cnd, isTrue, ok := edgeTaken(pr, ph.Block()); ok {
				edge = append(edge, domCond{cnd, isTrue, pr})
			}
			switch {
			case !complete(e, pr, edge):
				why = "the flag is set from something other than read+n >= 8"
			case !freshBlock.Dominates(at) && !latch.Block().Dominates(at):
				// (after the merge is fine too: the flag was false when the iteration began, so the extent was computed)
				why = "the flag is set in an iteration that did not compute the extent"
			default:
				nSet++
			}
		}
	}
	walk(flag)
	if why == "" && nSet == 0 {
		why = "the flag is never set"
	}
	if why == "" {
		// the flag must be false on entry
		entryFalse := false
		for ph := range seen {
			if ph.Block() != hdr {
				continue
			}
			for i, e := range ph.Edges {
				if hdr.Dominates(ph.Block().Preds[i]) {
					continue
				}
				if k, ok := e.(*ssa.Const); ok && k.Value != nil && k.Value.Kind() == constant.Bool && !constant.BoolVal(k.Value) {
					entryFalse = true
				}
			}
		}
		if !entryFalse {
			why = "the flag is not false when the loop is entered"
		}
	}
	return why
}

// c07MaxAlwaysPositive: every value ever stored into Stream.max is positive — a positive constant, or a value that a
// dominating (or edge) test found > 0. Then "no limit" has been normalised away where the stream is built and Recv
// may compare unconditionally.
func c07MaxAlwaysPositive(p *Program) bool {
	n := 0
	okAll := true
	var positive func(v ssa.Value, conds []domCond, d int) bool
	positive = func(v ssa.Value, conds []domCond, d int) bool {
		if d > 4 {
			return false
		}
		if k, ok := constIntVal(v); ok {
			return k > 0
		}
		for _, dc := range conds {
			bo, ok := dc.cond.(*ssa.BinOp)
			if !ok || !dc.outcome || bo.X != v {
				continue
			}
			if k, isK := constIntVal(bo.Y); isK && ((bo.Op == token.GTR && k >= 0) || (bo.Op == token.GEQ && k >= 1)) {
				return true
			}
		}
		if ph, ok := v.(*ssa.Phi); ok {
			for i, e := range ph.Edges {
				pr := ph.Block().Preds[i]
				cs := dominatingConds(pr)
				if cnd, isTrue, ok := edgeTaken(pr, ph.Block()); ok {
					cs = append(cs, withNilTestsNormalised([]domCond{{cnd, isTrue, pr}})...)
				}
				if !positive(e, cs, d+1) {
					return false
				}
			}
			return true
		}
		return false
	}
	for _, fn := range pkgFuncs(p, "ttlv") {
		allInstrs(fn, func(in ssa.Instruction) {
			st, ok := in.(*ssa.Store)
			if !ok {
				return
			}
			fa, ok := st.Addr.(*ssa.FieldAddr)
			if !ok || typeName(derefType(fa.X.Type())) != "Stream" || fname(derefStruct(fa.X.Type()).Field(fa.Field)) != "max" {
				return
			}
			n++
			if !positive(st.Val, dominatingConds(st.Block()), 0) {
				okAll = false
			}
		})
	}
	return n > 0 && okAll
}
