package main

// C04.L6 — every element sequence in the OASIS conformance vectors shipped with the
// repository is accepted, in order, by the codec plan of the Go type it decodes into.
// The vectors are parsed as data; nothing is executed.

import (
	"encoding/xml"
	"fmt"
	"go/constant"
	"go/token"
	"go/types"
	"io"
	"os"
	"path/filepath"
	"sort"
	"strings"
)

type xnode struct {
	name, typ, value, tagAttr string
	kids                      []*xnode
}

func parseVector(path string) ([]*xnode, error) {
	f, err := os.Open(path)
	if err != nil {
		return nil, err
	}
	defer f.Close()
	dec := xml.NewDecoder(f)
	root := &xnode{name: "#root"}
	stack := []*xnode{root}
	for {
		tok, err := dec.Token()
		if err == io.EOF {
			break
		}
		if err != nil {
			return nil, err
		}
		switch t := tok.(type) {
		case xml.StartElement:
			n := &xnode{name: t.Name.Local}
			for _, a := range t.Attr {
				switch a.Name.Local {
				case "type":
					n.typ = a.Value
				case "value":
					n.value = a.Value
				case "tag":
					n.tagAttr = a.Value
				}
			}
			top := stack[len(stack)-1]
			top.kids = append(top.kids, n)
			stack = append(stack, n)
		case xml.EndElement:
			stack = stack[:len(stack)-1]
		}
	}
	return root.kids, nil
}

type vecCtx struct {
	c          *c01ctx
	violations map[string]string // key -> message
	examples   map[string]string // key -> first file
	unknown    map[string]int
	nElems     int
	nStructs   int
}

func (v *vecCtx) child(n *xnode, name string) *xnode {
	for _, k := range n.kids {
		if k.name == name {
			return k
		}
	}
	return nil
}

// elemsOf: the ordered elements the encoder of T writes (hand-written or plan).
func (v *vecCtx) elemsOf(t *types.Named) []EncElem {
	e, _, _ := v.c.encoderElems(t)
	return e
}

func (v *vecCtx) tagOf(n *xnode) (int64, bool) {
	if n.name == "TTLV" {
		return 0, false
	}
	t, ok := v.c.reg.TagByName[n.name]
	return t, ok
}

// resolveIface picks the concrete struct for an interface-typed element from its siblings.
func (v *vecCtx) resolveIface(parent *xnode, field EncElem, parentT *types.Named, dirResp bool) *types.Named {
	reg := v.c.reg
	switch field.Src {
	case "RequestPayload", "ResponsePayload":
		op := v.child(parent, "Operation")
		if op == nil {
			return nil
		}
		for _, o := range reg.Ops {
			if o.OpObj != nil && strings.TrimPrefix(o.OpObj.Name(), "Operation") == op.value {
				if field.Src == "RequestPayload" {
					return namedOf(o.Req)
				}
				return namedOf(o.Resp)
			}
		}
	case "Object":
		ot := v.child(parent, "ObjectType")
		val := ""
		if ot != nil {
			val = ot.value
		} else {
			// Import: the Object Type attribute
			for _, k := range parent.kids {
				if k.name == "Attribute" {
					if an := v.child(k, "AttributeName"); an != nil && an.value == "Object Type" {
						if av := v.child(k, "AttributeValue"); av != nil {
							val = av.value
						}
					}
				}
			}
		}
		for _, e := range reg.Objects {
			if e.KeyObj != nil && strings.TrimPrefix(e.KeyObj.Name(), "ObjectType") == val {
				return namedOf(e.Type)
			}
		}
	case "AttributeValue":
		an := v.child(parent, "AttributeName")
		if an == nil {
			return nil
		}
		for _, e := range reg.Attrs {
			if constant.StringVal(e.Key) == an.value {
				return namedOf(e.Type)
			}
		}
	}
	return nil
}

func (v *vecCtx) walk(n *xnode, t *types.Named, file string, keyFormat string) {
	if t == nil {
		return
	}
	st, ok := t.Underlying().(*types.Struct)
	if !ok {
		return
	}
	_ = st
	elems := v.elemsOf(t)
	if len(elems) == 0 {
		return
	}
	tn := qualName(t)
	// choice types: the single child-bearing alternative
	allParam := true
	for _, e := range elems {
		if !e.TagParam {
			allParam = false
		}
	}
	if allParam {
		switch t.Obj().Name() {
		case "KeyValue":
			if len(n.kids) > 0 {
				for _, e := range elems {
					if e.Src == "Plain" {
						v.walk(n, namedOf(e.SrcType), file, keyFormat)
					}
				}
			}
		case "KeyMaterial":
			if len(n.kids) > 0 {
				for _, e := range elems {
					if e.Src == keyFormat {
						v.walk(n, namedOf(e.SrcType), file, keyFormat)
					}
				}
			}
		case "CredentialValue":
			// by shape: Username -> UserPassword, DeviceSerialNumber... ; pick the alternative whose plan knows the first child
			if len(n.kids) > 0 {
				for _, e := range elems {
					alt := namedOf(e.SrcType)
					if alt == nil {
						continue
					}
					for _, f := range v.elemsOf(alt) {
						if tg, ok := v.tagOf(n.kids[0]); ok && f.Tag == tg {
							v.walk(n, alt, file, keyFormat)
							return
						}
					}
				}
			}
		}
		return
	}
	v.nStructs++
	if t.Obj().Name() == "KeyBlock" {
		if kf := v.child(n, "KeyFormatType"); kf != nil {
			keyFormat = kf.value
		}
	}
	cur := 0
	lastName := ""
	for _, k := range n.kids {
		v.nElems++
		tg, known := v.tagOf(k)
		if !known {
			v.unknown[tn+"/"+k.name]++
			continue
		}
		j := -1
		for i := cur; i < len(elems); i++ {
			if elems[i].Tag == tg && !elems[i].Dynamic {
				j = i
				break
			}
			if elems[i].Dynamic && elems[i].Tag == 0 {
				// dynamic-tag interface (Object): any object element matches
				if ct := v.resolveIface(n, elems[i], t, false); ct != nil {
					if otag, ok := v.c.reg.TagForType(ct); ok && otag == tg {
						j = i
						break
					}
				}
			}
		}
		if j < 0 {
			// before the cursor?
			back := -1
			for i := 0; i < cur && i < len(elems); i++ {
				if elems[i].Tag == tg {
					back = i
				}
			}
			if back >= 0 {
				key := tn + "." + elems[back].Src
				if _, dup := v.violations[key]; !dup {
					v.violations[key] = fmt.Sprintf("conformance vectors carry %s after %s inside %s, but %s codes field %s before the field of %s: on decode the element arrives when its field has already been passed and is silently dropped (and on encode the order differs from the specification)", k.name, lastName, n.name, tn, elems[back].Src, lastName)
					v.examples[key] = file
				}
			} else {
				v.unknown[tn+"/"+k.name]++
			}
			continue
		}
		cur = j
		lastName = k.name
		e := elems[j]
		// recurse
		var ct *types.Named
		ft := e.SrcType
		if ft != nil {
			if _, isI := ft.Underlying().(*types.Interface); isI {
				ct = v.resolveIface(n, e, t, false)
			} else {
				x := ft
				for {
					switch u := types.Unalias(x).Underlying().(type) {
					case *types.Pointer:
						x = u.Elem()
						continue
					case *types.Slice:
						if b, ok := u.Elem().Underlying().(*types.Basic); ok && b.Kind() == types.Uint8 {
							break
						}
						x = u.Elem()
						continue
					}
					break
				}
				ct = namedOf(x)
			}
		}
		if ct != nil && len(k.kids) > 0 {
			if _, isStruct := ct.Underlying().(*types.Struct); isStruct && ct.Obj().Pkg() != nil && strings.HasPrefix(ct.Obj().Pkg().Path(), modPath) && ct.Obj().Pkg().Path() != ttlvPath {
				v.walk(k, ct, file, keyFormat)
			}
		}
	}
}

func (c *lexCtx) l6VectorOrder() {
	r, p := c.r, c.p
	r.Rule("C04.L6", "every element sequence of the OASIS conformance vectors is accepted in order by the codec plan of the type it decodes into (no element arrives after its field has been passed)", 1)
	cc := newC01ctx(r)
	v := &vecCtx{c: cc, violations: map[string]string{}, examples: map[string]string{}, unknown: map[string]int{}}
	root := p.Pkg("")
	reqT, _ := root.Types.Scope().Lookup("RequestMessage").Type().(*types.Named)
	respT, _ := root.Types.Scope().Lookup("ResponseMessage").Type().(*types.Named)
	dir := filepath.Join(p.Repo, "kmiptest", "testdata")
	nFiles, nMsgs := 0, 0
	var perr []string
	_ = filepath.Walk(dir, func(path string, info os.FileInfo, err error) error {
		if err != nil || info.IsDir() || !strings.HasSuffix(path, ".xml") {
			return nil
		}
		tops, err := parseVector(path)
		rel, _ := filepath.Rel(p.Repo, path)
		if err != nil {
			perr = append(perr, rel+": "+err.Error())
			return nil
		}
		nFiles++
		var visit func(n *xnode)
		visit = func(n *xnode) {
			switch n.name {
			case "RequestMessage":
				nMsgs++
				v.walk(n, reqT, rel, "")
			case "ResponseMessage":
				nMsgs++
				v.walk(n, respT, rel, "")
			default:
				for _, k := range n.kids {
					visit(k)
				}
			}
		}
		for _, t := range tops {
			visit(t)
		}
		return nil
	})
	r.Extra["oasis_vectors"] = map[string]any{"files": nFiles, "messages": nMsgs, "structures_walked": v.nStructs, "elements": v.nElems}
	if nFiles == 0 {
		r.Unk("C04.L6", "vectors", token.NoPos, "no conformance vector found under kmiptest/testdata")
		return
	}
	for _, e := range perr {
		r.Infof("C04.L6: vector not parsed: %s", e)
	}
	// one obligation per struct type met in the vectors
	typesSeen := map[string]bool{}
	for k := range v.violations {
		typesSeen[strings.SplitN(k, ".", 3)[0]+"."+strings.SplitN(k, ".", 3)[1]] = true
	}
	var keys []string
	for k := range v.violations {
		keys = append(keys, k)
	}
	sort.Strings(keys)
	for _, k := range keys {
		r.Bad("C04.L6", "order/"+k, token.NoPos, "%s (first seen in %s)", v.violations[k], v.examples[k])
	}
	if len(keys) == 0 {
		r.OK("C04.L6", "order/all", token.NoPos, "%d messages in %d vector files: %d structures, %d elements, every element found at or after the previous one in its type's coding order", nMsgs, nFiles, v.nStructs, v.nElems)
	}
	// elements the Go types do not model (dropped on decode): reported as information with counts
	var unk []string
	for k, n := range v.unknown {
		unk = append(unk, fmt.Sprintf("%s x%d", k, n))
	}
	sort.Strings(unk)
	if len(unk) > 0 {
		r.Extra["vector_elements_not_modelled"] = unk
		r.Infof("C04.L6: %d (type/element) pairs occur in the vectors but not in the Go type's plan (ignored by the lenient decoder): %s", len(unk), strings.Join(unk[:min(len(unk), 6)], "; "))
	}
	if v.nStructs < 20000 || nMsgs < 4000 {
		r.Unk("C04.L6", "coverage", token.NoPos, "only %d structures in %d messages were typed and walked (expected >= 20000 in >= 4000): the typing of vector elements no longer follows the Go types", v.nStructs, nMsgs)
	}
}
