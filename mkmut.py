#!/usr/bin/env python3
"""mkmut.py <ID> <name> <expect-substring> <file> <old> <new> [<file2> <old2> <new2> ...]
Creates sa/mutants/<ID>/<name>.patch: a one-instance break of /repo made by literal replacement (first occurrence)."""
import sys, os, difflib
pid, name, expect = sys.argv[1:4]
rest = sys.argv[4:]
out = []
for i in range(0, len(rest), 3):
    f, old, new = rest[i:i+3]
    old = old.encode().decode('unicode_escape'); new = new.encode().decode('unicode_escape')
    src = open('/repo/' + f).read()
    if src.count(old) < 1:
        sys.exit(f"{f}: old text not found: {old!r}")
    dst = src.replace(old, new, 1)
    out += list(difflib.unified_diff(src.splitlines(True), dst.splitlines(True), 'a/' + f, 'b/' + f))
d = f'/verif/sa/mutants/{pid}'
os.makedirs(d, exist_ok=True)
open(f'{d}/{name}.patch', 'w').write(f'# expect: {expect}\n' + ''.join(out))
print('wrote', f'{d}/{name}.patch')
