#!/bin/bash
# ./check.sh <ID> quick|thorough      — decide property <ID> on /repo's current working tree
# ./check.sh <ID> --replay <report>   — re-evaluate the constructs of a violation report
set -uo pipefail
cd "$(dirname "$0")"
. ./env.sh
ID=${1:?property id}
MODE=${2:-quick}
REPO=${VERIF_REPO:-/repo}
[ -x bin/kmipsa ] || ./setup.sh >/dev/null || { echo "CHECKER-FAULT: setup failed" >&2; exit 2; }
# rebuild the analyser when its sources are newer than the binary (cheap; keeps bin/ honest)
if [ -n "$(find sa -name '*.go' -newer bin/kmipsa -print -quit 2>/dev/null)" ]; then ./setup.sh >/dev/null || { echo "CHECKER-FAULT: setup failed" >&2; exit 2; }; fi
mkdir -p evidence out
# the package load runs the go command, which reads the build cache: never while a corpus script drops it
exec 9>/tmp/kmipsa-gocache.lock; flock -s 9
case "$MODE" in
  quick)    exec bin/kmipsa -repo "$REPO" -verif "$PWD" -prop "$ID" -tier quick -evidence "evidence/$ID.json" ;;
  thorough) ./mutants.sh "$ID" 8 || true
            ./benign.sh "$ID" 8 || true
            exec bin/kmipsa -repo "$REPO" -verif "$PWD" -prop "$ID" -tier thorough -evidence "evidence/$ID.json" -mutants "out/$ID.mutants.json" -benign "out/$ID.benign.json" ;;
  --replay) exec bin/kmipsa -repo "$REPO" -verif "$PWD" -prop "$ID" -tier quick -evidence "evidence/$ID.json" -replay "${3:?report path}" ;;
  *) echo "usage: $0 <ID> quick|thorough|--replay <path>" >&2; exit 2 ;;
esac
